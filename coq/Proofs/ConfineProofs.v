(* Proofs/ConfineProofs.v — root confinement as non-interference (C01):
   two worlds that agree on the subtree at the served root (and on file contents) but differ
   arbitrarily elsewhere give byte-identical responses to every request, from every connection
   state, and after the request they still agree inside while each world's outside is untouched. *)
From Coq Require Import ZifyBool ZifyNat.
From Verif Require Import Lib.Bytes Model.Path Model.Fs Model.Session Gen.Consts Spec.ProtoSpec
  Proofs.PathProofs Proofs.SessionProofs Proofs.ListingProofs.

(* ------------------------------------------------------------------ trees *)

Lemma walk_app : forall p n q, walk n (p ++ q) = bind (walk n p) (fun m => walk m q).
Proof.
  induction p as [|e r IH]; intros n q; cbn [app walk bind]; [reflexivity|].
  destruct n as [i|m cs]; [reflexivity|].
  destruct (name_max <? zlen e); [reflexivity|].
  destruct (find_child cs e); [apply IH|reflexivity].
Qed.

Lemma update_app : forall p n q f, update n (p ++ q) f = update n p (fun m => update m q f).
Proof.
  induction p as [|e r IH]; intros n q f; cbn [app update]; [reflexivity|].
  destruct n as [i|m cs]; [reflexivity|].
  destruct (name_max <? zlen e); [reflexivity|].
  destruct (find_child cs e); [rewrite IH; reflexivity|reflexivity].
Qed.

Lemma find_set_child_same cs e c c' : find_child cs e = Some c -> find_child (set_child cs e c') e = Some c'.
Proof.
  induction cs as [|[n x] r IH]; cbn [find_child set_child]; [discriminate|].
  destruct (list_eqb n e) eqn:E; intro H; cbn [find_child]; rewrite E; auto.
Qed.

Lemma walk_update : forall p n f n', update n p f = Ok n' ->
  exists m m', walk n p = Ok m /\ f m = Ok m' /\ walk n' p = Ok m'.
Proof.
  induction p as [|e r IH]; intros n f n' H; cbn [update walk] in *.
  - exists n, n'. auto.
  - destruct n as [i|mt cs]; [discriminate|].
    destruct (name_max <? zlen e) eqn:El; [discriminate|].
    destruct (find_child cs e) as [c|] eqn:Ef; [|discriminate].
    destruct (update c r f) as [c'|] eqn:Eu; cbn [bind] in H; [|discriminate].
    inversion H; subst. destruct (IH _ _ _ Eu) as (m & m' & H1 & H2 & H3).
    exists m, m'. rewrite (find_set_child_same _ _ _ _ Ef). auto.
Qed.

Lemma update_ok_of_walk : forall p n f m m', walk n p = Ok m -> f m = Ok m' -> exists n', update n p f = Ok n'.
Proof.
  induction p as [|e r IH]; intros n f m m' Hw Hf; cbn [update walk] in *.
  - inversion Hw; subst. eauto.
  - destruct n as [i|mt cs]; [discriminate|].
    destruct (name_max <? zlen e); [discriminate|].
    destruct (find_child cs e) as [c|]; [|discriminate].
    destruct (IH _ _ _ _ Hw Hf) as [c' ->]. cbn [bind]. eauto.
Qed.

Lemma update_err_of_walk : forall p n f e, walk n p = Err e -> update n p f = Err e.
Proof.
  induction p as [|x r IH]; intros n f e Hw; cbn [update walk] in *; [discriminate|].
  destruct n as [i|mt cs]; [exact Hw|].
  destruct (name_max <? zlen x); [exact Hw|].
  destruct (find_child cs x) as [c|]; [|exact Hw].
  rewrite (IH _ _ _ Hw). reflexivity.
Qed.

Lemma set_child_twice cs e c1 c2 : set_child (set_child cs e c1) e c2 = set_child cs e c2.
Proof.
  induction cs as [|[n x] r IH]; cbn [set_child].
  - rewrite list_eqb_refl. reflexivity.
  - destruct (list_eqb n e) eqn:E; cbn [set_child]; rewrite E; [reflexivity|]. rewrite IH. reflexivity.
Qed.

Lemma update_twice : forall p n f g n1 n2,
  update n p f = Ok n1 -> update n1 p g = Ok n2 -> update n p (fun m => bind (f m) g) = Ok n2.
Proof.
  induction p as [|e r IH]; intros n f g n1 n2 H1 H2; cbn [update] in *.
  - rewrite H1. exact H2.
  - destruct n as [i|mt cs]; [discriminate|].
    destruct (name_max <? zlen e) eqn:El; [discriminate|].
    destruct (find_child cs e) as [c|] eqn:Ef; [|discriminate].
    destruct (update c r f) as [c1|] eqn:Eu; cbn [bind] in H1; [|discriminate].
    inversion H1; subst. rewrite (find_set_child_same _ _ _ _ Ef) in H2.
    destruct (update c1 r g) as [c2|] eqn:Eu2; cbn [bind] in H2; [|discriminate].
    inversion H2; subst. rewrite (IH _ _ _ _ _ Eu Eu2). cbn [bind]. rewrite set_child_twice. reflexivity.
Qed.

(* "t' is t with (at most) the subtree at p replaced" *)
Definition only_below (p : list bytes) (t t' : node) : Prop := exists g, update t p g = Ok t'.

Lemma only_below_refl p t m : walk t p = Ok m -> only_below p t t.
Proof.
  intros H. exists Ok. revert t H. induction p as [|e r IH]; intros t H; cbn [update walk] in *; [reflexivity|].
  destruct t as [i|mt cs]; [discriminate|]. destruct (name_max <? zlen e); [discriminate|].
  destruct (find_child cs e) as [c|] eqn:Ef; [|discriminate]. rewrite (IH _ H). cbn [bind]. f_equal. f_equal.
  clear -Ef. induction cs as [|[n x] r' IH']; cbn [find_child set_child] in *; [discriminate|].
  destruct (list_eqb n e) eqn:E.
  - inversion Ef; subst. reflexivity.
  - rewrite IH' by auto. reflexivity.
Qed.

Lemma only_below_trans p t1 t2 t3 : only_below p t1 t2 -> only_below p t2 t3 -> only_below p t1 t3.
Proof. intros [f H1] [g H2]. exists (fun m => bind (f m) g). eapply update_twice; eauto. Qed.

(* ------------------------------------------------------------------ agreement *)

Section NI.
  Variable c : cfg.

  Record agree (w1 w2 : world) : Prop := {
    ag_inodes : inodes w1 = inodes w2;
    ag_next : next_ino w1 = next_ino w2;
    ag_root : exists m cs, walk (tree w1) (root c) = Ok (Dir m cs) /\ walk (tree w2) (root c) = Ok (Dir m cs);
  }.

  Lemma ag_walk w1 w2 q : agree w1 w2 -> walk (tree w1) (abs_path c q) = walk (tree w2) (abs_path c q).
  Proof.
    intros [_ _ (m & cs & H1 & H2)]. unfold abs_path. rewrite !walk_app, H1, H2. reflexivity.
  Qed.

  Lemma ag_node_info w1 w2 n : agree w1 w2 -> node_info w1 n = node_info w2 n.
  Proof. intros [Hi _ _]. destruct n; cbn [node_info]; rewrite ?Hi; reflexivity. Qed.

  Lemma ag_resolve w1 w2 q : agree w1 w2 ->
    resolve (plen c) w1 (abs_path c q) = resolve (plen c) w2 (abs_path c q).
  Proof. intros A. unfold resolve. rewrite (ag_walk _ _ q A). reflexivity. Qed.

  Lemma ag_stat w1 w2 q : agree w1 w2 ->
    fs_stat (plen c) w1 (abs_path c q) = fs_stat (plen c) w2 (abs_path c q).
  Proof.
    intros A. unfold fs_stat. rewrite (ag_resolve _ _ q A).
    destruct (resolve (plen c) w2 (abs_path c q)); cbn [bind]; [apply ag_node_info; auto|reflexivity].
  Qed.

  Lemma ag_open w1 w2 q : agree w1 w2 -> os_open c w1 q = os_open c w2 q.
  Proof. intros A. unfold os_open. rewrite (ag_resolve _ _ q A). reflexivity. Qed.

  (* handles held by a connection point below the root *)
  Definition handle_ok (h : handle) : Prop :=
    match hobj_ h with HDir p => p = abs_path c (hrel h) | HFile _ => True end.
  Definition view_ok (v : view) : Prop := match v with VPlain h => handle_ok h end.
  Definition optview_ok (o : option view) : Prop := match o with Some v => view_ok v | None => True end.
  Definition conn_ok (k : conn) : Prop :=
    optview_ok (cwd k) /\ optview_ok (ro k) /\ match wo k with Some h => handle_ok h | None => True end.

  Lemma os_open_ok w q h : os_open c w q = Ok h -> handle_ok h.
  Proof.
    unfold os_open. destruct (resolve (plen c) w (abs_path c q)) as [n|]; cbn [bind]; [|discriminate].
    destruct n; intro H; inversion H; subst; unfold handle_ok; cbn [hobj_ hrel]; auto.
  Qed.

  Lemma ag_hstat w1 w2 h : agree w1 w2 -> handle_ok h -> h_stat c w1 h = h_stat c w2 h.
  Proof.
    intros A Hh. unfold h_stat, handle_ok in *. destruct (hobj_ h) as [i|p].
    - apply ag_node_info; auto.
    - subst p. rewrite (ag_walk _ _ _ A). destruct (walk (tree w2) (abs_path c (hrel h))); cbn [bind]; [apply ag_node_info; auto|reflexivity].
  Qed.

  Lemma ag_dents w1 w2 h : agree w1 w2 -> handle_ok h -> h_load_dents w1 h = h_load_dents w2 h.
  Proof.
    intros A Hh. unfold h_load_dents, handle_ok in *. destruct (hdents h); [reflexivity|].
    destruct (hobj_ h) as [i|p]; [reflexivity|]. subst p. rewrite (ag_walk _ _ _ A). reflexivity.
  Qed.

  Lemma ag_view_read w1 w2 v off n : agree w1 w2 -> view_read w1 v off n = view_read w2 v off n.
  Proof.
    intros [Hi _ _]. destruct v as [h]. unfold view_read, h_read_at, fs_read. rewrite Hi. reflexivity.
  Qed.

  Lemma ag_view_stat w1 w2 v : agree w1 w2 -> view_ok v -> view_stat c w1 v = view_stat c w2 v.
  Proof. intros A Hv. destruct v as [h]. apply ag_hstat; auto. Qed.

  Lemma ag_detect w1 w2 v : agree w1 w2 -> determine_sector_size w1 v = determine_sector_size w2 v.
  Proof. intros A. unfold determine_sector_size. rewrite (ag_view_read _ _ v _ _ A). reflexivity. Qed.

  Lemma ag_cd_read w1 w2 v sec : agree w1 w2 -> forall cnt off, cd_read w1 v sec off cnt = cd_read w2 v sec off cnt.
  Proof.
    intros A. induction cnt as [|k IH]; intros off; cbn [cd_read]; [reflexivity|].
    rewrite (ag_view_read _ _ v _ _ A). destruct (view_read w2 v off cd_read_size); [|reflexivity].
    rewrite IH. reflexivity.
  Qed.

  Lemma ag_next_entry w1 w2 rel names : agree w1 w2 -> next_entry c w1 rel names = next_entry c w2 rel names.
  Proof.
    intros A. induction names as [|n r IH]; cbn [next_entry]; [reflexivity|].
    rewrite (ag_stat _ _ (rel ++ [n]) A), IH. reflexivity.
  Qed.

  Lemma ag_readdir_infos w1 w2 rel names : agree w1 w2 -> readdir_infos c w1 rel names = readdir_infos c w2 rel names.
  Proof.
    intros A. induction names as [|n r IH]; cbn [readdir_infos]; [reflexivity|].
    rewrite (ag_stat _ _ (rel ++ [n]) A), IH. reflexivity.
  Qed.

  Lemma ag_dir_size w1 w2 rel : agree w1 w2 -> dir_size c w1 rel = dir_size c w2 rel.
  Proof.
    intros A. unfold dir_size. rewrite (ag_resolve _ _ rel A).
    destruct (resolve (plen c) w2 (abs_path c rel)); [|reflexivity].
    rewrite !tree_size_sum. unfold ino_size. destruct A as [Hi _ _]. rewrite Hi. reflexivity.
  Qed.

  Lemma ag_open_view w1 w2 q : agree w1 w2 -> fs_open_view c w1 q = fs_open_view c w2 q.
  Proof. intros A. unfold fs_open_view. rewrite (ag_open _ _ q A). reflexivity. Qed.

  Lemma open_view_ok w q v o cl : fs_open_view c w q = Ok (v, o, cl) -> view_ok v.
  Proof.
    unfold fs_open_view. destruct (os_open c w q) eqn:E; cbn [bind]; [|discriminate].
    intro H; inversion H; subst. cbn [view_ok]. eapply os_open_ok; eauto.
  Qed.

  (* ---------------------------------------------------------------- mutations below the root *)

  (* what a mutation may do to a pair of agreeing worlds: fail alike, or succeed alike, keeping the
     agreement and touching each tree only below the root *)
  Definition mut_rel {A} (w1 w2 : world) (r1 r2 : res (world * A)) : Prop :=
    match r1, r2 with
    | Err e1, Err e2 => e1 = e2
    | Ok (a, x), Ok (b, y) => x = y /\ agree a b /\ only_below (root c) (tree w1) (tree a) /\ only_below (root c) (tree w2) (tree b)
    | _, _ => False
    end.

  Lemma split_last_app (p q : list bytes) q' e : split_last q = Some (q', e) -> split_last (p ++ q) = Some (p ++ q', e).
  Proof.
    unfold split_last. rewrite rev_app_distr. destruct (rev q) as [|x r] eqn:E; [discriminate|].
    intro H; inversion H; subst. cbn [app]. rewrite rev_app_distr, rev_involutive. reflexivity.
  Qed.

  Lemma split_last_nonempty (q : list bytes) : q <> [] -> exists q' e, split_last q = Some (q', e) /\ q = q' ++ [e].
  Proof.
    intros H. unfold split_last. destruct (rev q) as [|x r] eqn:E.
    - apply (f_equal (@rev bytes)) in E. rewrite rev_involutive in E. cbn in E. contradiction.
    - exists (rev r), x. split; [reflexivity|]. rewrite <- (rev_involutive q), E. reflexivity.
  Qed.

  Lemma update_err_of_f : forall p n f m e, walk n p = Ok m -> f m = Err e -> update n p f = Err e.
  Proof.
    induction p as [|x r IH]; intros n f m e Hw Hf; cbn [update walk] in *.
    - inversion Hw; subst. exact Hf.
    - destruct n as [i|mt cs]; [discriminate|].
      destruct (name_max <? zlen x); [discriminate|].
      destruct (find_child cs x) as [ch|]; [|discriminate].
      rewrite (IH _ _ _ _ Hw Hf). reflexivity.
  Qed.

  Definition keeps_dir (g : node -> res node) : Prop :=
    forall m cs n', g (Dir m cs) = Ok n' -> exists m' cs', n' = Dir m' cs'.

  Lemma update_keeps_dir q g m cs n' : keeps_dir g -> update (Dir m cs) q g = Ok n' -> exists m' cs', n' = Dir m' cs'.
  Proof.
    intros Hg. destruct q as [|e r]; cbn [update].
    - apply Hg.
    - destruct (name_max <? zlen e); [discriminate|]. destruct (find_child cs e); [|discriminate].
      destruct (update n r g); cbn [bind]; [|discriminate]. intro H; inversion H; eauto.
  Qed.

  (* replacing a subtree at root ++ q' by the same function in both worlds *)
  Lemma update_below w1 w2 q' g : agree w1 w2 -> keeps_dir g ->
    match update (tree w1) (abs_path c q') g, update (tree w2) (abs_path c q') g with
    | Ok t1', Ok t2' =>
        (exists m cs, walk t1' (root c) = Ok (Dir m cs) /\ walk t2' (root c) = Ok (Dir m cs)) /\
        only_below (root c) (tree w1) t1' /\ only_below (root c) (tree w2) t2'
    | Err e1, Err e2 => e1 = e2
    | _, _ => False
    end.
  Proof.
    intros [_ _ (m & cs & H1 & H2)] Hg. unfold abs_path. rewrite !update_app.
    set (G := fun r : node => update r q' g).
    destruct (G (Dir m cs)) as [r'|e] eqn:EG.
    - destruct (update_ok_of_walk _ _ G _ _ H1 EG) as [t1' E1].
      destruct (update_ok_of_walk _ _ G _ _ H2 EG) as [t2' E2].
      rewrite E1, E2.
      destruct (walk_update _ _ _ _ E1) as (a & a' & A1 & A2 & A3).
      destruct (walk_update _ _ _ _ E2) as (b & b' & B1 & B2 & B3).
      rewrite H1 in A1. rewrite H2 in B1. inversion A1; inversion B1; subst a b.
      rewrite EG in A2, B2. inversion A2; inversion B2; subst a' b'.
      destruct (update_keeps_dir q' g m cs r' Hg EG) as (m' & cs' & ->).
      split; [eauto|]. split; [exists G; exact E1|exists G; exact E2].
    - rewrite (update_err_of_f _ _ G _ _ H1 EG), (update_err_of_f _ _ G _ _ H2 EG). reflexivity.
  Qed.

  Lemma walk_parent t p m : walk t p = Ok m -> p <> [] ->
    exists par e mt cs, split_last p = Some (par, e) /\ walk t par = Ok (Dir mt cs) /\
                        (name_max <? zlen e) = false /\ find_child cs e = Some m.
  Proof.
    intros Hw Hp. destruct (split_last_nonempty p Hp) as (par & e & Hs & ->).
    rewrite walk_app in Hw. destruct (walk t par) as [n|] eqn:En; cbn [bind] in Hw; [|discriminate].
    cbn [walk] in Hw. destruct n as [i|mt cs]; [discriminate|].
    destruct (name_max <? zlen e) eqn:El; [discriminate|].
    destruct (find_child cs e) as [ch|] eqn:Ef; [|discriminate]. inversion Hw; subst.
    exists par, e, mt, cs. auto.
  Qed.

  Lemma agree_refl_below w1 w2 : agree w1 w2 ->
    only_below (root c) (tree w1) (tree w1) /\ only_below (root c) (tree w2) (tree w2).
  Proof. intros [_ _ (m & cs & H1 & H2)]. split; eapply only_below_refl; eauto. Qed.

  Definition mut_rel0 (w1 w2 : world) (r1 r2 : res world) : Prop :=
    match r1, r2 with
    | Err e1, Err e2 => e1 = e2
    | Ok a, Ok b => agree a b /\ only_below (root c) (tree w1) (tree a) /\ only_below (root c) (tree w2) (tree b)
    | _, _ => False
    end.

  Lemma keeps_dir_set e x : keeps_dir (fun n => match n with
                                                | Dir _ cs' => Ok (Dir (tmut c) (set_child cs' e x))
                                                | File _ => Err ENOTDIR end).
  Proof. intros m cs n' H. inversion H. eauto. Qed.

  Lemma keeps_dir_del e : keeps_dir (fun n => match n with
                                              | Dir _ cs' => Ok (Dir (tmut c) (del_child cs' e))
                                              | File _ => Err ENOTDIR end).
  Proof. intros m cs n' H. inversion H. eauto. Qed.

  (* the parent of a path below the root, in both worlds *)
  Lemma parent_cases w1 w2 q : agree w1 w2 ->
    match split_last (abs_path c q) with
    | None => True
    | Some (par, e) =>
        (exists q', par = abs_path c q' /\ walk (tree w1) par = walk (tree w2) par) \/
        (q = [] /\ exists mt1 cs1 mt2 cs2 m cs,
            walk (tree w1) par = Ok (Dir mt1 cs1) /\ walk (tree w2) par = Ok (Dir mt2 cs2) /\
            (name_max <? zlen e) = false /\ find_child cs1 e = Some (Dir m cs) /\ find_child cs2 e = Some (Dir m cs))
    end.
  Proof.
    intros A. destruct q as [|x q0].
    - unfold abs_path. rewrite app_nil_r. destruct (root c) as [|r0 rr] eqn:Er; [cbn; exact I|].
      destruct A as [_ _ (m & cs & H1 & H2)]. rewrite Er in H1, H2.
      destruct (walk_parent _ _ _ H1 ltac:(discriminate)) as (par & e & mt1 & cs1 & S1 & W1 & L1 & F1).
      destruct (walk_parent _ _ _ H2 ltac:(discriminate)) as (par2 & e2 & mt2 & cs2 & S2 & W2 & L2 & F2).
      rewrite S1 in S2. inversion S2; subst par2 e2. rewrite S1. right. split; [reflexivity|].
      exists mt1, cs1, mt2, cs2, m, cs. auto.
    - destruct (split_last_nonempty (x :: q0) ltac:(discriminate)) as (q' & e & Hs & Hq).
      unfold abs_path. rewrite (split_last_app (root c) (x :: q0) q' e Hs). left. exists q'. split; [reflexivity|].
      apply (ag_walk _ _ q' A).
  Qed.

  Lemma ag_create w1 w2 q : agree w1 w2 ->
    mut_rel w1 w2 (fs_create (tmut c) (plen c) w1 (abs_path c q)) (fs_create (tmut c) (plen c) w2 (abs_path c q)).
  Proof.
    intros A. pose proof (parent_cases w1 w2 q A) as PC. unfold fs_create, mut_rel.
    destruct (path_precheck (plen c) (abs_path c q)); cbn [bind]; [|reflexivity].
    destruct (split_last (abs_path c q)) as [[par e]|]; [|reflexivity].
    destruct PC as [(q' & -> & Hw)|(-> & mt1 & cs1 & mt2 & cs2 & m & cs & W1 & W2 & L & F1 & F2)].
    - rewrite Hw. destruct (walk (tree w2) (abs_path c q')) as [pn|]; cbn [bind]; [|reflexivity].
      destruct pn as [i|mt cs]; [reflexivity|].
      destruct (name_max <? zlen e); [reflexivity|].
      destruct (find_child cs e) as [[i|m' cs']|].
      + destruct A as [Hi Hn Hr]. rewrite Hi. split; [reflexivity|].
        destruct (agree_refl_below w1 w2 (Build_agree _ _ Hi Hn Hr)) as [B1 B2].
        split; [|split; assumption]. constructor; cbn [inodes next_ino tree]; auto; try (rewrite Hi; reflexivity).
      + reflexivity.
      + pose proof (update_below w1 w2 q' _ A (keeps_dir_set e (File (next_ino w1)))) as U.
        destruct A as [Hi Hn Hr]. rewrite <- Hn.
        destruct (update (tree w1) (abs_path c q') _) as [t1'|]; destruct (update (tree w2) (abs_path c q') _) as [t2'|];
          cbn [bind]; try contradiction; [|exact U].
        destruct U as ((m & cs0 & U1 & U2) & B1 & B2). split; [reflexivity|].
        split; [|split; assumption]. constructor; cbn [inodes next_ino tree]; eauto; try (rewrite Hi; reflexivity).
    - rewrite W1, W2. cbn [bind]. rewrite L, F1, F2. reflexivity.
  Qed.

  Lemma ag_mkdir w1 w2 q : agree w1 w2 ->
    mut_rel0 w1 w2 (fs_mkdir (tmut c) (plen c) w1 (abs_path c q)) (fs_mkdir (tmut c) (plen c) w2 (abs_path c q)).
  Proof.
    intros A. pose proof (parent_cases w1 w2 q A) as PC. unfold fs_mkdir, mut_rel0.
    destruct (path_precheck (plen c) (abs_path c q)); cbn [bind]; [|reflexivity].
    destruct (split_last (abs_path c q)) as [[par e]|]; [|reflexivity].
    destruct PC as [(q' & -> & Hw)|(-> & mt1 & cs1 & mt2 & cs2 & m & cs & W1 & W2 & L & F1 & F2)].
    - rewrite Hw. destruct (walk (tree w2) (abs_path c q')) as [pn|]; cbn [bind]; [|reflexivity].
      destruct pn as [i|mt cs]; [reflexivity|].
      destruct (name_max <? zlen e); [reflexivity|].
      destruct (find_child cs e); [reflexivity|].
      pose proof (update_below w1 w2 q' _ A (keeps_dir_set e (Dir (tmut c) []))) as U.
      destruct A as [Hi Hn Hr].
      destruct (update (tree w1) (abs_path c q') _) as [t1'|]; destruct (update (tree w2) (abs_path c q') _) as [t2'|];
        cbn [bind]; try contradiction; [|exact U].
      destruct U as ((m & cs0 & U1 & U2) & B1 & B2).
      split; [|split; assumption]. constructor; cbn [inodes next_ino tree]; eauto.
    - rewrite W1, W2. cbn [bind]. rewrite L, F1, F2. reflexivity.
  Qed.

  Lemma ag_remove w1 w2 q : agree w1 w2 -> q <> [] ->
    mut_rel0 w1 w2 (fs_remove (tmut c) (plen c) w1 (abs_path c q)) (fs_remove (tmut c) (plen c) w2 (abs_path c q)).
  Proof.
    intros A Hq. pose proof (parent_cases w1 w2 q A) as PC. unfold fs_remove, mut_rel0.
    destruct (path_precheck (plen c) (abs_path c q)); cbn [bind]; [|reflexivity].
    destruct (split_last (abs_path c q)) as [[par e]|]; [|reflexivity].
    destruct PC as [(q' & -> & Hw)|(-> & _)]; [|contradiction].
    rewrite Hw. destruct (walk (tree w2) (abs_path c q')) as [pn|]; cbn [bind]; [|reflexivity].
    destruct pn as [i|mt cs]; [reflexivity|].
    destruct (name_max <? zlen e); [reflexivity|].
    pose proof (update_below w1 w2 q' _ A (keeps_dir_del e)) as U.
    destruct A as [Hi Hn Hr].
    destruct (find_child cs e) as [[i|m' [|x cs']]|]; try reflexivity;
      (destruct (update (tree w1) (abs_path c q') _) as [t1'|]; destruct (update (tree w2) (abs_path c q') _) as [t2'|];
       cbn [bind]; try contradiction; [|exact U];
       destruct U as ((m & cs0 & U1 & U2) & B1 & B2);
       split; [|split; assumption]; constructor; cbn [inodes next_ino tree]; eauto).
  Qed.

  Lemma ag_write w1 w2 i pos d : agree w1 w2 ->
    mut_rel0 w1 w2 (fs_write (tmut c) w1 i pos d) (fs_write (tmut c) w2 i pos d).
  Proof.
    intros A. destruct (agree_refl_below _ _ A) as [B1 B2]. destruct A as [Hi Hn Hr].
    unfold fs_write, mut_rel0. rewrite Hi.
    destruct (get_inode (inodes w2) i); [|reflexivity].
    split; [|split; assumption]. constructor; cbn [inodes next_ino tree]; auto.
  Qed.

  (* ---------------------------------------------------------------- one request *)

  Definition obs (o : outcome) := (o_out o, o_close o, o_conn o).

  Lemma with_dents_ok h l : handle_ok h -> handle_ok (with_dents h l).
  Proof. unfold handle_ok, with_dents. cbn [hobj_ hrel]. auto. Qed.

  Lemma step_conn_ok w k rq : conn_ok k -> conn_ok (o_conn (step c w k rq)).
  Proof.
    destruct k as [cwd0 ro0 cd wo0 op cl]. unfold conn_ok. cbn [cwd ro wo].
    intros (Hc & Hr & Hw).
    destruct cwd0 as [[ch]|], ro0 as [[rh]|], wo0 as [wh|]; cbn [optview_ok view_ok] in Hc, Hr, Hw;
    destruct rq; cbn [step cwd ro wo cdsec opens closes]; cbv zeta;
      repeat match goal with
             | |- context [fs_open_view c w ?r] =>
                 let E := fresh "E" in destruct (fs_open_view c w r) as [[[? ?] ?]|] eqn:E; [apply open_view_ok in E|]
             | |- context [match ?x with _ => _ end] => destruct x eqn:?
             end;
      cbn [o_conn done hangup set_ro set_cwd set_wo bump cwd ro wo optview_ok view_ok] in *;
      try discriminate;
      repeat match goal with H : Some _ = Some _ |- _ => inversion H; clear H; subst end;
      repeat split; auto using with_dents_ok; try (unfold handle_ok; cbn [hobj_ hrel]; auto; fail).
  Qed.

  Lemma step_ni_pure w1 w2 k rq : agree w1 w2 -> conn_ok k -> mutating rq = false ->
    obs (step c w1 k rq) = obs (step c w2 k rq).
  Proof.
    intros A (Hc & Hr & Hw) Hm. unfold obs.
    destruct rq; try discriminate; cbn [step]; cbv zeta.
    - (* OPEN_FILE *)
      rewrite (ag_open_view _ _ _ A).
      destruct (list_eqb (last_elem (rooted_elems p)) closefile_name).
      + destruct (ro k); reflexivity.
      + destruct (fs_open_view c w2 (rooted_elems p)) as [[[v o] cl]|] eqn:E.
        * rewrite (ag_view_stat _ _ v A (open_view_ok _ _ _ _ _ E)), (ag_detect _ _ v A).
          destruct (ro k); destruct (view_stat c w2 v); reflexivity.
        * destruct (ro k); reflexivity.
    - (* READ_FILE_CRITICAL *)
      destruct (ro k) as [v|]; [|reflexivity]. rewrite (ag_view_read _ _ v _ _ A).
      destruct (view_read w2 v _ n); [|reflexivity]. destruct (zlen a =? n); reflexivity.
    - (* READ_CD *)
      destruct (ro k) as [v|] eqn:Ek; [|reflexivity]. cbn [optview_ok] in Hr.
      destruct (cdsec k <=? 0); [reflexivity|].
      rewrite (ag_view_stat _ _ v A Hr), (ag_cd_read _ _ v (cdsec k) A).
      destruct (cd_read w2 v (cdsec k) _ _) as [d ok]. destruct ok; reflexivity.
    - (* READ_FILE *)
      destruct (ro k) as [v|]; [|reflexivity]. rewrite (ag_view_read _ _ v _ _ A).
      destruct (view_read w2 v _ n); reflexivity.
    - (* OPEN_DIR *)
      rewrite (ag_open_view _ _ _ A).
      destruct (fs_open_view c w2 (rooted_elems p)) as [[[v o] cl]|] eqn:E; [|reflexivity].
      rewrite (ag_view_stat _ _ v A (open_view_ok _ _ _ _ _ E)). destruct (view_stat c w2 v); reflexivity.
    - (* READ_DIR_ENTRY *)
      destruct (cwd k) as [[h]|]; [|reflexivity]. cbn [optview_ok view_ok] in Hc.
      rewrite (ag_dents _ _ h A Hc). destruct (h_load_dents w2 h); [|reflexivity].
      rewrite (ag_next_entry _ _ _ _ A). destruct (next_entry c w2 (hrel h) a) as [[[nm fi]|] rest]; reflexivity.
    - (* READ_DIR_ENTRY_V2 *)
      destruct (cwd k) as [[h]|]; [|reflexivity]. cbn [optview_ok view_ok] in Hc.
      rewrite (ag_dents _ _ h A Hc). destruct (h_load_dents w2 h); [|reflexivity].
      rewrite (ag_next_entry _ _ _ _ A). destruct (next_entry c w2 (hrel h) a) as [[[nm fi]|] rest]; reflexivity.
    - (* STAT *)
      rewrite (ag_stat _ _ _ A). destruct (fs_stat (plen c) w2 _); reflexivity.
    - (* GET_DIR_SIZE *)
      rewrite (ag_dir_size _ _ _ A). reflexivity.
    - (* READ_DIR *)
      destruct (cwd k) as [[h]|]; [|reflexivity]. cbn [optview_ok view_ok] in Hc.
      rewrite (ag_dents _ _ h A Hc). destruct (h_load_dents w2 h); [|reflexivity].
      rewrite (ag_readdir_infos _ _ _ _ A). reflexivity.
  Qed.

  Definition stays_below (w w' : world) : Prop := only_below (root c) (tree w) (tree w').

  (* the full statement for one request *)
  Theorem step_ni w1 w2 k rq : agree w1 w2 -> conn_ok k ->
    obs (step c w1 k rq) = obs (step c w2 k rq) /\
    agree (o_world (step c w1 k rq)) (o_world (step c w2 k rq)) /\
    stays_below w1 (o_world (step c w1 k rq)) /\ stays_below w2 (o_world (step c w2 k rq)).
  Proof.
    intros A Hk. destruct (mutating rq) eqn:Hm.
    2:{ split; [apply step_ni_pure; auto|]. rewrite !step_nonmutating by auto.
        destruct (agree_refl_below _ _ A). auto. }
    destruct (agree_refl_below _ _ A) as [B1 B2]. unfold obs, stays_below.
    destruct rq; try discriminate; cbn [step]; cbv zeta.
    - (* CREATE *)
      destruct (negb (allow_write c)); [cbn [o_out o_close o_conn o_world done]; auto|].
      rewrite (ag_stat _ _ _ A).
      set (k1 := match wo k with Some _ => set_wo k None 0 1 | None => k end).
      assert (forall r1 r2, mut_rel w1 w2 r1 r2 ->
        let o1 := match r1 with Err _ => done w1 k1 (enc_result32 false)
                  | Ok (w', i) => done w' (set_wo k1 (Some {| hobj_ := HFile i; hpos := 0; hdents := None; hrel := rooted_elems p |}) 1 0) (enc_result32 true) end in
        let o2 := match r2 with Err _ => done w2 k1 (enc_result32 false)
                  | Ok (w', i) => done w' (set_wo k1 (Some {| hobj_ := HFile i; hpos := 0; hdents := None; hrel := rooted_elems p |}) 1 0) (enc_result32 true) end in
        (o_out o1, o_close o1, o_conn o1) = (o_out o2, o_close o2, o_conn o2) /\ agree (o_world o1) (o_world o2) /\
        only_below (root c) (tree w1) (tree (o_world o1)) /\ only_below (root c) (tree w2) (tree (o_world o2))) as K.
      { intros r1 r2 M. unfold mut_rel in M. destruct r1 as [[a x]|e1], r2 as [[b y]|e2]; try contradiction; cbv zeta;
          cbn [o_out o_close o_conn o_world done].
        - destruct M as (-> & M1 & M2 & M3). auto.
        - subst. auto. }
      destruct (fs_stat (plen c) w2 (abs_path c (rooted_elems p))) as [[[|] sz mt]|];
        try (cbn [o_out o_close o_conn o_world done]; auto; fail).
      + destruct (match rooted_elems p with first :: _ :: _ => _ | _ => false end).
        * apply (K (Err EPERM) (Err EPERM)). reflexivity.
        * apply K. apply ag_create; auto.
      + destruct (match rooted_elems p with first :: _ :: _ => _ | _ => false end).
        * apply (K (Err EPERM) (Err EPERM)). reflexivity.
        * apply K. apply ag_create; auto.
    - (* WRITE *)
      destruct (negb (allow_write c)); [cbn [o_out o_close o_conn o_world done]; auto|].
      destruct (wo k) as [h|]; [|cbn [o_out o_close o_conn o_world done]; auto].
      destruct (hobj_ h) as [i|]; [|cbn [o_out o_close o_conn o_world done]; auto].
      destruct (zlen payload =? 0); [cbn [o_out o_close o_conn o_world done]; auto|].
      pose proof (ag_write w1 w2 i (hpos h) payload A) as M. unfold mut_rel0 in M.
      destruct (fs_write (tmut c) w1 i (hpos h) payload) as [a|e1], (fs_write (tmut c) w2 i (hpos h) payload) as [b|e2];
        try contradiction; cbn [o_out o_close o_conn o_world done]; [destruct M as (M1 & M2 & M3)|]; auto.
    - (* DELETE *)
      destruct (is_nil (rooted_elems p)) eqn:En; [cbn [o_out o_close o_conn o_world done]; auto|].
      destruct (negb (allow_write c)); [cbn [o_out o_close o_conn o_world done]; auto|].
      assert (rooted_elems p <> []) as Hne by (destruct (rooted_elems p); [discriminate|discriminate]).
      pose proof (ag_remove w1 w2 _ A Hne) as M. unfold mut_rel0 in M.
      destruct (fs_remove (tmut c) (plen c) w1 _) as [a|e1], (fs_remove (tmut c) (plen c) w2 _) as [b|e2];
        try contradiction; cbn [o_out o_close o_conn o_world done]; [destruct M as (M1 & M2 & M3)|]; auto.
    - (* MKDIR *)
      destruct (negb (allow_write c)); [cbn [o_out o_close o_conn o_world done]; auto|].
      pose proof (ag_mkdir w1 w2 (rooted_elems p) A) as M. unfold mut_rel0 in M.
      destruct (fs_mkdir (tmut c) (plen c) w1 _) as [a|e1], (fs_mkdir (tmut c) (plen c) w2 _) as [b|e2];
        try contradiction; cbn [o_out o_close o_conn o_world done]; [destruct M as (M1 & M2 & M3)|]; auto.
    - (* RMDIR *)
      destruct (is_nil (rooted_elems p)) eqn:En; [cbn [o_out o_close o_conn o_world done]; auto|].
      destruct (negb (allow_write c)); [cbn [o_out o_close o_conn o_world done]; auto|].
      assert (rooted_elems p <> []) as Hne by (destruct (rooted_elems p); [discriminate|discriminate]).
      pose proof (ag_remove w1 w2 _ A Hne) as M. unfold mut_rel0 in M.
      destruct (fs_remove (tmut c) (plen c) w1 _) as [a|e1], (fs_remove (tmut c) (plen c) w2 _) as [b|e2];
        try contradiction; cbn [o_out o_close o_conn o_world done]; [destruct M as (M1 & M2 & M3)|]; auto.
  Qed.

  (* ---------------------------------------------------------------- whole connections, byte level *)

  Theorem serve_ni : forall fuel w1 w2 k input, agree w1 w2 -> conn_ok k ->
    let '(outs1, cl1, w1', k1) := serve fuel c w1 k input in
    let '(outs2, cl2, w2', k2) := serve fuel c w2 k input in
    outs1 = outs2 /\ cl1 = cl2 /\ k1 = k2 /\ agree w1' w2' /\ stays_below w1 w1' /\ stays_below w2 w2'.
  Proof.
    induction fuel as [|f IH]; intros w1 w2 k input A Hk; cbn [serve].
    - destruct (agree_refl_below _ _ A). auto 10.
    - destruct (parse_request input) as [rq rest| |];
        try (destruct (agree_refl_below _ _ A); auto 10; fail).
      destruct (step_ni w1 w2 k rq A Hk) as (Ho & A' & B1 & B2).
      unfold obs in Ho. inversion Ho as [[H1 H2 H3]]. rewrite H1, H2, H3.
      destruct (o_close (step c w2 k rq)).
      + auto 10.
      + pose proof (step_conn_ok w2 k rq Hk) as Hk'.
        specialize (IH _ _ (o_conn (step c w2 k rq)) rest A' Hk').
        destruct (serve f c (o_world (step c w1 k rq)) (o_conn (step c w2 k rq)) rest) as [[[outs1 cl1] w1'] k1].
        destruct (serve f c (o_world (step c w2 k rq)) (o_conn (step c w2 k rq)) rest) as [[[outs2 cl2] w2'] k2].
        destruct IH as (I1 & I2 & I3 & I4 & I5 & I6). subst.
        split; [reflexivity|]. split; [reflexivity|]. split; [reflexivity|]. split; [exact I4|].
        unfold stays_below in *. split; eapply only_below_trans; eauto.
  Qed.
End NI.

(* ------------------------------------------------------------------ what "only below" means for lookups *)

Lemma find_set_child_other cs b c' a : list_eqb b a = false -> find_child (set_child cs b c') a = find_child cs a.
Proof.
  intros Hab. induction cs as [|[n x] r IH]; cbn [set_child find_child].
  - rewrite Hab. reflexivity.
  - destruct (list_eqb n b) eqn:E; cbn [find_child].
    + apply list_eqb_eq in E. subst n. rewrite Hab. reflexivity.
    + rewrite IH. reflexivity.
Qed.

(* a lookup that leaves the path to the root at some element is not affected by a replacement below the root *)
Theorem only_below_lookup : forall l p' q' a b t t',
  list_eqb b a = false -> only_below (l ++ b :: p') t t' -> walk t' (l ++ a :: q') = walk t (l ++ a :: q').
Proof.
  induction l as [|x l IH]; intros p' q' a b t t' Hab [g Hu]; cbn [app] in *.
  - cbn [update walk] in *. destruct t as [i|m cs]; [discriminate|].
    destruct (name_max <? zlen b); [discriminate|].
    destruct (find_child cs b) as [ch|]; [|discriminate].
    destruct (update ch p' g) as [ch'|]; cbn [bind] in Hu; [|discriminate]. inversion Hu; subst.
    rewrite (find_set_child_other cs b ch' a Hab). reflexivity.
  - cbn [update walk] in *. destruct t as [i|m cs]; [discriminate|].
    destruct (name_max <? zlen x) eqn:El; [discriminate|].
    destruct (find_child cs x) as [ch|] eqn:Ef; [|discriminate].
    destruct (update ch (l ++ b :: p') g) as [ch'|] eqn:Eu; cbn [bind] in Hu; [|discriminate]. inversion Hu; subst.
    rewrite (find_set_child_same _ _ _ _ Ef).
    apply (IH p' q' a b ch ch' Hab). exists g. exact Eu.
Qed.
